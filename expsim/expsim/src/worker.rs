//! The worker process: ONE real `metrics::exporter::main` (it can be started
//! once per process) and ONE real `observer::spawn` on a current-thread tokio
//! runtime, all sockets simulated; scenarios run one after the other, one
//! `@@R {json}` line per scenario on stdout. When the exporter is gone (spin,
//! exit, hang) the worker says so (`fatal`) and exits; the parent starts a
//! fresh worker for the remaining scenarios.
//!
//! No wall clock, no sleeps, no real sockets: the harness writes bytes, lets
//! the executor run until nothing can make progress ("quiescent": three
//! executor rounds without any activity on a simulated socket), then looks.
use crate::openmetrics::{parse_http, HttpParse};
use crate::oracle19;
use crate::scenario::*;
use crate::states;
use serde::{Deserialize, Serialize};
use statime_linux::observer::ObservableInstanceState;
use std::collections::BTreeMap;
use std::io::Write;
use tokio::sim::{self, SpinInfo, TcpClient, UnixFault, UnixRecord};
use tokio::task::JoinHandle;
use vcommon::{Fnv, Violation};

/// executor rounds one wait may take (the "deadline" of the property, in polls)
pub const POLL_BUDGET: u64 = 20_000;
/// harness watchdog (seconds of wall clock): never part of a verdict, only
/// turns a harness bug into an error instead of a stuck batch
pub const WATCHDOG_SECS: u32 = 600;

#[derive(Clone, Debug, Default, Serialize, Deserialize)]
pub struct ScenarioResult {
    pub id: u64,
    pub violations: Vec<Violation>,
    pub nontrivial: bool,
    pub shape: u64,
    pub digest: u64,
    /// the exporter of this process is gone or stuck: replace the worker
    pub fatal: bool,
    /// short human-readable account of what happened
    pub trace: Vec<String>,
    /// hash of the instance state served (C19)
    pub state: u64,
    pub harness_error: Option<String>,
}

#[derive(Clone, Debug, Default, Serialize, Deserialize)]
pub struct WorkerSummary {
    pub faults: BTreeMap<String, u64>,
    pub probes: BTreeMap<String, u64>,
    pub rounds: u64,
    pub scenarios: u64,
}

#[derive(Debug, Clone)]
enum ExporterEnd {
    Returned(Result<(), String>),
    Spin(SpinInfo, String),
    Panicked(String),
}

#[derive(Debug, Clone, Copy, PartialEq, Eq)]
enum Settled {
    Quiescent,
    ExporterEnded,
    BudgetExhausted,
}

struct Exchange {
    connected: bool,
    sent: Vec<u8>,
    received: Vec<u8>,
    settled: Settled,
    server_closed: bool,
    server_reads: Vec<usize>,
}

struct Rig {
    exporter: Option<JoinHandle<Result<(), String>>>,
    exporter_end: Option<ExporterEnd>,
    observer: JoinHandle<std::io::Result<()>>,
    observer_ended: bool,
    tx: tokio::sync::watch::Sender<ObservableInstanceState>,
    addr: String,
    rounds: u64,
    summary: WorkerSummary,
    digest: Fnv,
}

fn mask_number_after(hay: &[u8], needle: &[u8], out: &mut Vec<u8>) {
    // copy hay to out, replacing the number that follows `needle` (up to , } or line end) by '#'
    let mut i = 0;
    while i < hay.len() {
        if hay[i..].starts_with(needle) {
            out.extend_from_slice(needle);
            i += needle.len();
            out.push(b'#');
            while i < hay.len() && !matches!(hay[i], b',' | b'}' | b'\n' | b'\r') {
                i += 1;
            }
        } else {
            out.push(hay[i]);
            i += 1;
        }
    }
}

/// uptime (a real-clock reading) and what depends on its printed length are
/// replaced before hashing
pub fn masked(bytes: &[u8]) -> Vec<u8> {
    let mut a = Vec::with_capacity(bytes.len());
    mask_number_after(bytes, b"\"uptime_seconds\":", &mut a);
    let mut b = Vec::with_capacity(a.len());
    mask_number_after(&a, b"content-length: ", &mut b);
    // statime_uptime_<unit>{...} <value>
    let mut c = Vec::with_capacity(b.len());
    for line in b.split_inclusive(|x| *x == b'\n') {
        if line.starts_with(b"statime_uptime") {
            if let Some(p) = line.iter().rposition(|x| *x == b' ') {
                c.extend_from_slice(&line[..=p]);
                c.extend_from_slice(b"#\n");
                continue;
            }
        }
        c.extend_from_slice(line);
    }
    c
}

impl Rig {
    async fn settle(&mut self) -> Settled {
        /// virtual milliseconds within which the exporter must get back to serving (a well-formed
        /// request "must be answered within a deadline")
        const DEADLINE_MS: u64 = 5_000;
        let mut waited_ms: u64 = 0;
        let mut idle = 0;
        for _ in 0..POLL_BUDGET {
            let a = sim::activity();
            tokio::task::yield_now().await;
            self.rounds += 1;
            if self.exporter_end.is_some() {
                return Settled::ExporterEnded;
            }
            if self.exporter.as_ref().map(|h| h.is_finished()).unwrap_or(false) {
                let h = self.exporter.take().unwrap();
                self.exporter_end = Some(match h.await {
                    Ok(r) => ExporterEnd::Returned(r),
                    Err(e) if e.is_panic() => {
                        let p = e.into_panic();
                        let msg = p.downcast_ref::<String>().cloned().or_else(|| p.downcast_ref::<&str>().map(|s| s.to_string())).unwrap_or_else(|| "non-string panic".into());
                        match sim::spin_info() {
                            Some(si) if msg.starts_with("SpinDetected") => ExporterEnd::Spin(si, msg),
                            _ => ExporterEnd::Panicked(msg),
                        }
                    }
                    Err(e) => ExporterEnd::Panicked(format!("exporter task cancelled: {e}")),
                });
                return Settled::ExporterEnded;
            }
            if !self.observer_ended && self.observer.is_finished() {
                self.observer_ended = true;
                *self.summary.probes.entry("observer_task_ended".into()).or_insert(0) += 1;
            }
            if sim::activity() == a {
                idle += 1;
                if idle >= 3 {
                    // Nothing can run. If the exporter is not parked in accept() it may be sleeping
                    // (a pause between connections is legitimate): let virtual time pass, up to the
                    // deadline within which a client must be served, before calling it quiescent.
                    if waited_ms < DEADLINE_MS && !sim::tcp_accept_pending(&self.addr) {
                        tokio::time::advance(std::time::Duration::from_millis(50)).await;
                        waited_ms += 50;
                        idle = 0;
                        if waited_ms == 50 {
                            *self.summary.probes.entry("virtual_time_advanced_while_exporter_not_in_accept".into()).or_insert(0) += 1;
                        }
                        continue;
                    }
                    return Settled::Quiescent;
                }
            } else {
                idle = 0;
            }
        }
        Settled::BudgetExhausted
    }

    fn absorb_counters(&mut self) -> BTreeMap<&'static str, u64> {
        let c = sim::take_counters();
        for (k, v) in &c {
            let is_fault = k.contains("fault") || k.contains("reset") || k.contains("refused") || k.contains("epipe") || k.contains("econnreset");
            let m = if is_fault { &mut self.summary.faults } else { &mut self.summary.probes };
            *m.entry(k.to_string()).or_insert(0) += v;
        }
        c
    }

    fn fault(&mut self, k: &str) {
        *self.summary.faults.entry(k.to_string()).or_insert(0) += 1;
    }
    fn probe(&mut self, k: &str) {
        *self.summary.probes.entry(k.to_string()).or_insert(0) += 1;
    }

    fn hash_exchange(&mut self, ex: &Exchange) {
        self.digest.bytes(&ex.sent);
        self.digest.byte(0xfe);
        self.digest.bytes(&masked(&ex.received));
        self.digest.byte(ex.server_closed as u8);
        self.digest.byte(ex.settled as u8);
        for r in &ex.server_reads {
            self.digest.u64(*r as u64);
        }
    }
    fn hash_unix(&mut self, recs: &[UnixRecord]) {
        for r in recs {
            self.digest.str(&format!("{:?}", r.fault));
            self.digest.bytes(&masked(&r.written));
            self.digest.byte(0xfd);
            self.digest.bytes(&masked(&r.delivered));
        }
    }

    /// One client connection sending `req` in the given write sizes and waiting for the answer.
    async fn request(&mut self, req: &[u8], chunks: &[u32], write_max: Option<u32>) -> Exchange {
        let mut ex = Exchange { connected: false, sent: Vec::new(), received: Vec::new(), settled: Settled::Quiescent, server_closed: false, server_reads: Vec::new() };
        let mut c = match TcpClient::connect(&self.addr) {
            Ok(c) => c,
            Err(_) => {
                ex.settled = self.settle().await;
                return ex;
            }
        };
        ex.connected = true;
        if let Some(m) = write_max {
            c.set_server_write_max(m as usize);
        }
        let mut off = 0usize;
        for n in chunks {
            if off >= req.len() {
                break;
            }
            let n = (*n as usize).clamp(1, req.len() - off);
            c.write(&req[off..off + n]);
            off += n;
            if off < req.len() {
                // the executor runs: the server sees this piece on its own
                if self.settle().await != Settled::Quiescent {
                    break;
                }
            }
        }
        if off < req.len() && self.exporter_end.is_none() {
            c.write(&req[off..]);
            off = req.len();
        }
        ex.sent = req[..off].to_vec();
        ex.settled = self.settle().await;
        ex.received = c.take_received();
        ex.server_closed = c.server_closed();
        ex.server_reads = c.server_read_sizes();
        c.close();
        drop(c);
        if self.exporter_end.is_none() {
            let s = self.settle().await;
            if s != Settled::Quiescent {
                ex.settled = s;
            }
        }
        ex
    }

    /// The wedge, if the exporter task has ended: (kind, description)
    fn wedge(&self) -> Option<(&'static str, String)> {
        match self.exporter_end.as_ref()? {
            ExporterEnd::Spin(si, msg) => Some(("spin", format!("{msg} [{} reads of 0 bytes, cause {}]", si.zero_reads, si.cause))),
            ExporterEnd::Returned(Ok(())) => Some(("exit", "the exporter's main future returned Ok(())".into())),
            ExporterEnd::Returned(Err(e)) => Some(("exit", format!("the exporter's main future returned Err({e})"))),
            ExporterEnd::Panicked(m) => Some(("panic", format!("the exporter task panicked: {m}"))),
        }
    }
}

fn violation(property: &str, oracle: String, key: String, message: String) -> Violation {
    Violation { property: property.to_string(), oracle, key, message }
}

// ------------------------------------------------------------------ C19

struct WorldCache {
    recipe: Option<WorldRecipe>,
    states: Vec<ObservableInstanceState>,
    /// per state: exposed meanLinkDelay of a P2P port differs from what the port works with
    link_delay_issues: Vec<Option<String>>,
}

async fn run_c19(rig: &mut Rig, id: u64, sc: &C19Scenario, cache: &mut WorldCache) -> ScenarioResult {
    let mut res = ScenarioResult { id, ..Default::default() };
    if cache.recipe.as_ref() != Some(&sc.world) {
        let (st, issues): (Vec<_>, Vec<_>) = states::simulate_checked(&sc.world).into_iter().unzip();
        cache.states = st;
        cache.link_delay_issues = issues;
        cache.recipe = Some(sc.world.clone());
        rig.probe(&format!("world_{}", sc.world.topo));
        *rig.summary.probes.entry("world_distinct_snapshots".into()).or_insert(0) += cache.states.len() as u64;
    }
    if cache.states.is_empty() {
        res.harness_error = Some(format!("world {:?} produced no BMCA snapshot", sc.world));
        return res;
    }
    rig.digest = Fnv::new();
    if !sc.prelude.is_empty() {
        // earlier connections, served while the instance was in another state
        let pst = cache.states[sc.prelude_snapshot as usize % cache.states.len()].clone();
        let inst_len = instance_json_len(&pst);
        rig.tx.send_replace(pst);
        let mut history = String::new();
        for step in &sc.prelude {
            let rep = do_step(rig, step, "prelude", inst_len, &history).await;
            rig.probe(&format!("prelude_{}", step.client.class()));
            res.trace.push(format!("prelude: {}", rep.trace));
            history.push_str(&format!("{}/{} ", step.client.name(), step.obs.name()));
            if let Some(v) = rep.violation {
                // the exporter's survival is C20's subject; reported there, noted here
                res.violations.push(v);
            }
            if rep.fatal {
                res.fatal = true;
                res.digest = rig.digest.finish();
                return res;
            }
        }
    }
    let mut st = cache.states[sc.snapshot as usize % cache.states.len()].clone();
    if let Some(msg) = &cache.link_delay_issues[sc.snapshot as usize % cache.states.len()] {
        let zero = msg.contains("exposed as TimeInterval(0)");
        res.violations.push(violation("C19", "C19.exposed_link_delay_differs_from_live".into(), format!("mechanism=p2p,exposed_zero={zero}"), msg.clone()));
    }
    if st.port_ds.iter().any(|p| matches!(p.delay_mechanism, statime::observability::port::DelayMechanism::P2P { mean_link_delay, .. } if mean_link_delay != Default::default())) {
        rig.probe("p2p_port_with_measured_link_delay");
    }
    states::apply_edits(&mut st, &sc.edits);
    res.state = states::state_hash(&st);
    rig.tx.send_replace(st.clone());
    let _ = sim::take_unix_records();
    let req: &[u8] = if sc.transport.long_request { REQUEST_LONG } else { REQUEST };
    let ex = rig.request(req, &sc.transport.request_chunks, sc.transport.server_write_max).await;
    let unix = sim::take_unix_records();
    rig.absorb_counters();
    rig.hash_exchange(&ex);
    rig.hash_unix(&unix);
    res.trace.push(format!(
        "state: {} ports {:?}, steps_removed {}, offset bits {}, path trace {} entries (enable {}), utc {:?}",
        st.port_ds.len(),
        st.port_ds.iter().map(|p| p.port_state as u8).collect::<Vec<_>>(),
        st.current_ds.steps_removed,
        st.current_ds.offset_from_master.nanos().to_bits(),
        st.path_trace_ds.list.len(),
        st.path_trace_ds.enable,
        st.time_properties_ds.current_utc_offset
    ));
    res.trace.push(format!("request in server reads {:?}; json {} bytes; response {} bytes", ex.server_reads, unix.first().map(|u| u.written.len()).unwrap_or(0), ex.received.len()));

    if let Some((kind, msg)) = rig.wedge() {
        // not this property's subject, but nothing else can be learnt from this process
        res.violations.push(violation("C20", format!("C20.{kind}_on_get"), "trigger=get (seen during a C19 run)".into(), msg));
        res.fatal = true;
        res.digest = rig.digest.finish();
        return res;
    }
    let mut probes = oracle19::Probes::new();
    let chk = oracle19::check(&st, &ex.received, ex.server_closed, &unix, &mut probes);
    for (k, v) in probes {
        *rig.summary.probes.entry(k).or_insert(0) += v;
    }
    // coverage probes of the quantifier
    let ob = st.current_ds.offset_from_master.nanos().to_bits();
    if ob != 0 {
        rig.probe("offset_nonzero");
        if sc.edits.is_empty() {
            rig.probe("offset_nonzero_as_reached_in_simulation");
            if ob.abs() > (1i128 << 63) {
                rig.probe("offset_bits_exceed_64_as_reached_in_simulation");
            }
        }
    }
    if sc.edits.is_empty() && st.current_ds.steps_removed > 0 {
        rig.probe("slave_or_boundary_state_as_reached_in_simulation");
    }
    if sc.edits.is_empty() && !st.path_trace_ds.list.is_empty() {
        rig.probe("path_trace_nonempty_as_reached_in_simulation");
    }
    if ob > i64::MAX as i128 || ob < i64::MIN as i128 {
        rig.probe("offset_bits_exceed_64");
    }
    let db = st.current_ds.mean_delay.nanos().to_bits();
    if db > i64::MAX as i128 || db < i64::MIN as i128 {
        rig.probe("mean_delay_bits_exceed_64");
    }
    match st.path_trace_ds.list.len() {
        0 => rig.probe("path_trace_len_0"),
        128 => rig.probe("path_trace_len_128"),
        1..=3 => rig.probe("path_trace_len_1_3"),
        _ => rig.probe("path_trace_len_4_127"),
    }
    for p in &st.port_ds {
        rig.probe(&format!("port_state_{}", p.port_state as u8));
        rig.probe(match p.delay_mechanism {
            statime::observability::port::DelayMechanism::E2E { .. } => "mechanism_e2e",
            statime::observability::port::DelayMechanism::P2P { .. } => "mechanism_p2p",
            statime::observability::port::DelayMechanism::NoMechanism => "mechanism_none",
            statime::observability::port::DelayMechanism::CommonP2P { .. } => "mechanism_common_p2p",
            statime::observability::port::DelayMechanism::Special => "mechanism_special",
        });
    }
    rig.probe(&format!("ports_{}", st.port_ds.len().min(4)));
    if ex.server_reads.len() > 1 {
        rig.probe("request_arrived_in_several_reads");
    }
    if sc.edits.is_empty() {
        rig.probe("state_as_reached_in_simulation");
    } else {
        rig.probe("state_edited");
    }
    res.trace.push(format!("status {:?}, {} families, {} series, evaluated {}", chk.status, chk.families, chk.series, chk.evaluated));
    for f in chk.findings {
        res.violations.push(violation("C19", f.oracle.to_string(), f.key, f.message));
    }
    res.nontrivial = chk.evaluated;
    res.shape = res.state;
    rig.digest.str(&format!("{:?}", res.violations.iter().map(|v| (&v.oracle, &v.key)).collect::<Vec<_>>()));
    res.digest = rig.digest.finish();
    if ex.settled != Settled::Quiescent {
        res.fatal = true;
    }
    res
}

// ------------------------------------------------------------------ C20

fn oversized_request(n: u32) -> Vec<u8> {
    // a request line and header lines that never end
    let mut v = b"GET /metrics HTTP/1.1\r\nX-Filler: ".to_vec();
    while v.len() < n as usize {
        v.push(b'a' + (v.len() % 26) as u8);
    }
    v.truncate(n as usize);
    v
}

/// instance part of the observation JSON plus the closing brace of the document
fn instance_json_len(st: &ObservableInstanceState) -> u32 {
    serde_json::to_vec(st).map(|v| v.len() as u32 + 1).unwrap_or(1)
}

fn plan_obs(obs: &ObsB, inst_len: u32) -> UnixFault {
    let from_end = |p: u16| 1 + (inst_len as u64 * (1000 - p.min(1000) as u64) / 1000) as u32;
    match obs {
        ObsB::Valid => UnixFault::None,
        ObsB::Truncated(p) => UnixFault::Truncate { drop_tail: from_end(*p) },
        ObsB::Corrupt(p, x) => UnixFault::Corrupt { from_end: from_end(*p), xor: *x },
        ObsB::Refused => UnixFault::Refuse,
        ObsB::CloseEarly => UnixFault::CloseBeforeWrite,
    }
}

struct StepReport {
    violation: Option<Violation>,
    fatal: bool,
    trace: String,
    shape: String,
}

async fn do_step(rig: &mut Rig, step: &Step, pos: &str, inst_len: u32, history: &str) -> StepReport {
    let is_final = pos == "final";
    let cname = if is_final { "final_get".to_string() } else { step.client.name() };
    let class = if is_final { "final_get" } else { step.client.class() };
    sim::set_next_unix_fault(plan_obs(&step.obs, inst_len));
    let _ = sim::take_unix_records();
    let mut exchange: Option<Exchange> = None;
    let mut note = String::new();
    match &step.client {
        ClientB::Get => exchange = Some(rig.request(REQUEST, &[], None).await),
        ClientB::Split(pieces) => exchange = Some(rig.request(REQUEST, pieces, None).await),
        ClientB::NonGet(verb) => {
            let req = format!("{verb} /metrics HTTP/1.1\r\ncontent-length: 0\r\n\r\n");
            let ex = rig.request(req.as_bytes(), &[], None).await;
            note = format!("server sent {} bytes, closed={}", ex.received.len(), ex.server_closed);
            rig.hash_exchange(&ex);
        }
        other => {
            // behaviours that never wait for an answer
            match TcpClient::connect(&rig.addr) {
                Err(_) => note = "connect refused".into(),
                Ok(mut c) => {
                    let mut sent: Vec<u8> = Vec::new();
                    match other {
                        ClientB::CloseAfter(n) => {
                            sent = REQUEST[..(*n as usize).min(REQUEST.len() - 1)].to_vec();
                            if !sent.is_empty() {
                                c.write(&sent);
                                rig.settle().await;
                            }
                            c.close();
                        }
                        ClientB::Oversized(n) => {
                            sent = oversized_request((*n).max(2048));
                            c.write(&sent);
                            rig.settle().await;
                            c.close();
                        }
                        ClientB::ResetAtOnce => c.reset(),
                        ClientB::ResetAfterPartial(n) => {
                            sent = REQUEST[..(*n as usize).clamp(1, REQUEST.len() - 1)].to_vec();
                            c.write(&sent);
                            rig.settle().await;
                            c.reset();
                        }
                        ClientB::ResetAfterRequest => {
                            sent = REQUEST.to_vec();
                            c.write(&sent);
                            c.reset_when_consumed();
                        }
                        ClientB::GoneBeforeResponse => {
                            sent = REQUEST.to_vec();
                            c.write(&sent);
                            c.close();
                        }
                        _ => unreachable!(),
                    }
                    let s = rig.settle().await;
                    let got = c.take_received();
                    note = format!("sent {} bytes, server wrote {} bytes, server closed={}, {:?}", sent.len(), got.len(), c.server_closed(), s);
                    rig.digest.bytes(&sent);
                    rig.digest.byte(0xfe);
                    rig.digest.bytes(&masked(&got));
                    rig.digest.byte(c.server_closed() as u8);
                    if s == Settled::BudgetExhausted && rig.exporter_end.is_none() {
                        drop(c);
                        let _ = sim::clear_unix_fault();
                        return StepReport {
                            violation: Some(violation(
                                "C20",
                                format!("C20.livelock_on_{class}"),
                                format!("trigger={cname}"),
                                format!("after {cname} the executor was still busy after {POLL_BUDGET} rounds without the exporter finishing anything"),
                            )),
                            fatal: true,
                            trace: format!("{cname}/{}: {note}", step.obs.name()),
                            shape: format!("{}:{}:livelock", step.client.name(), step.obs.name()),
                        };
                    }
                }
            }
        }
    }
    let unplanned = sim::clear_unix_fault();
    let unix = sim::take_unix_records();
    let counters = rig.absorb_counters();
    let obs_used = !unix.is_empty() || counters.get("unix_connect_refused_injected").copied().unwrap_or(0) > 0;
    if unplanned != UnixFault::None {
        rig.probe("obs_behaviour_not_reached");
    }
    rig.hash_unix(&unix);
    let obs_key = if obs_used { format!(" obs={}", step.obs.name()) } else { String::new() };
    // wedges are keyed by the client behaviour alone (the observation behaviour is in the message);
    // status oracles are keyed by both, because there the observation hop decides
    let wedge_key = format!("trigger={cname}");
    let key = if is_final { "trigger=final_get".to_string() } else { format!("trigger={cname}{obs_key}") };
    let tr = |extra: &str| format!("{cname}/{}: {extra}{note}", step.obs.name());

    // (1) is the exporter still there?
    if let Some((kind, msg)) = rig.wedge() {
        return StepReport {
            violation: Some(violation(
                "C20",
                format!("C20.{kind}_on_{class}"),
                wedge_key,
                format!("{msg}; triggered by client behaviour {cname} (observation socket: {}{}); sequence so far: [{history}]", step.obs.name(), if obs_used { "" } else { ", never reached" }),
            )),
            fatal: true,
            trace: tr(&format!("EXPORTER GONE ({kind}) ")),
            shape: format!("{}:{}:{kind}", step.client.name(), step.obs.name()),
        };
    }
    // (1b) every client of this step is gone and nothing can run any more: a live exporter is
    // parked in accept(). If it is not, it waits for something that will never happen.
    let stuck = !sim::tcp_accept_pending(&rig.addr);
    if stuck && exchange.as_ref().map(|e| matches!(parse_http(&e.received), HttpParse::Complete(_))).unwrap_or(true) {
        return StepReport {
            violation: Some(violation(
                "C20",
                format!("C20.hang_on_{class}"),
                wedge_key,
                format!("after {cname} the runtime is quiescent but the exporter is not waiting in accept(): it can never serve another client; observation socket {}; sequence so far: [{history}]", step.obs.name()),
            )),
            fatal: true,
            trace: tr("EXPORTER STUCK (not in accept) "),
            shape: format!("{}:{}:stuck", step.client.name(), step.obs.name()),
        };
    }
    // (2) a well-formed GET must be answered completely
    if let Some(ex) = exchange {
        rig.hash_exchange(&ex);
        let healthy = step.obs == ObsB::Valid;
        let (viol, shape_tail): (Option<(String, String, bool)>, String) = match parse_http(&ex.received) {
            HttpParse::Complete(r) => {
                if r.status == 200 {
                    match oracle19::body_well_formed(&r.body) {
                        Ok(_) => (None, "200".into()),
                        Err(e) => (Some((format!("C20.malformed_body_on_{class}"), format!("status 200 but the body is not a well-formed exposition: {e}"), false)), "200bad".into()),
                    }
                } else if healthy {
                    (
                        Some((
                            format!("C20.error_status_on_{class}"),
                            format!("status {} {} although this request's own observation hop was healthy{}", r.status, r.reason, if rig.observer_ended { " (the observer task has ended)" } else { "" }),
                            false,
                        )),
                        format!("{}", r.status),
                    )
                } else if r.status >= 500 {
                    (None, format!("{}", r.status))
                } else {
                    (Some((format!("C20.wrong_status_on_{class}"), format!("status {} for a well-formed GET whose observation hop failed (an error status 5xx is expected)", r.status), false)), format!("{}", r.status))
                }
            }
            other => {
                let what = match &other {
                    HttpParse::Incomplete(w) => format!("incomplete response ({w}, {} bytes received)", ex.received.len()),
                    HttpParse::Malformed(k, d) => format!("malformed response ({k} {d})"),
                    _ => unreachable!(),
                };
                let (kind, why) = if !ex.connected {
                    ("refused", "the exporter no longer listens".to_string())
                } else if ex.settled == Settled::BudgetExhausted {
                    ("livelock", format!("executor still busy after {POLL_BUDGET} rounds"))
                } else if ex.server_closed {
                    ("no_response", "the exporter closed the connection without a complete response".to_string())
                } else {
                    ("hang", "the runtime is quiescent (no task can run) while the client still waits".to_string())
                };
                (Some((format!("C20.{kind}_on_{class}"), format!("{what}: {why}"), kind != "no_response")), kind.to_string())
            }
        };
        let trace = tr(&format!("{} bytes answered, {shape_tail} ", ex.received.len()));
        let shape = format!("{}:{}:{shape_tail}", step.client.name(), step.obs.name());
        if let Some((oracle, msg, fatal)) = viol {
            return StepReport {
                violation: Some(violation("C20", oracle, key, format!("{msg}; client behaviour {cname}, observation socket {}; sequence so far: [{history}]", step.obs.name()))),
                fatal,
                trace,
                shape,
            };
        }
        return StepReport { violation: None, fatal: false, trace, shape };
    }
    StepReport { violation: None, fatal: false, trace: tr(""), shape: format!("{}:{}:ok", step.client.name(), step.obs.name()) }
}

async fn run_c20(rig: &mut Rig, id: u64, sc: &C20Scenario, inst_len: u32) -> ScenarioResult {
    let mut res = ScenarioResult { id, ..Default::default() };
    rig.digest = Fnv::new();
    let mut shape = Fnv::new();
    let mut history: Vec<String> = Vec::new();
    let final_step = Step { client: ClientB::Get, obs: ObsB::Valid };
    let n = sc.steps.len();
    for k in 0..=n {
        let (step, pos) = if k < n { (&sc.steps[k], "step") } else { (&final_step, "final") };
        let rep = do_step(rig, step, pos, inst_len, &history.join(", ")).await;
        if k < n {
            history.push(format!("{}/{}", step.client.name(), step.obs.name()));
            if step.client.hostile() || step.obs != ObsB::Valid {
                res.nontrivial = true;
                if step.client.hostile() {
                    rig.fault(&format!("client_{}", step.client.class()));
                }
                if step.obs != ObsB::Valid {
                    rig.fault(&format!("obs_{}", step.obs.class()));
                }
            }
        }
        shape.str(&rep.shape);
        res.trace.push(rep.trace);
        if let Some(v) = rep.violation {
            rig.digest.str(&v.oracle);
            rig.digest.str(&v.key);
            res.violations.push(v);
        }
        if rep.fatal {
            res.fatal = true;
            break;
        }
    }
    if !res.fatal {
        rig.probe("final_get_answered");
    }
    res.shape = shape.finish();
    res.digest = rig.digest.finish();
    res
}

// ------------------------------------------------------------------ process entry

fn emit(tag: &str, v: &impl Serialize) {
    let s = serde_json::to_string(v).unwrap();
    let out = std::io::stdout();
    let mut l = out.lock();
    let _ = writeln!(l, "{tag} {s}");
    let _ = l.flush();
}

/// Entry of the worker process. argv is `<exe> -c <config.toml>` (the exporter's
/// own clap parser reads it); the batch file comes through EXPSIM_WORKER.
pub fn worker_main(batch_path: &str) -> i32 {
    unsafe {
        libc::alarm(WATCHDOG_SECS);
    }
    // the exporter's SpinDetected panic is expected and reported through the JoinHandle
    std::panic::set_hook(Box::new(|info| {
        let msg = info.payload().downcast_ref::<String>().cloned().or_else(|| info.payload().downcast_ref::<&str>().map(|s| s.to_string())).unwrap_or_default();
        if !msg.starts_with("SpinDetected") {
            eprintln!("worker panic: {msg} at {:?}", info.location().map(|l| format!("{}:{}", l.file(), l.line())));
        }
    }));
    let args: Vec<String> = std::env::args().collect();
    let cfg_path = match args.iter().position(|a| a == "-c").and_then(|i| args.get(i + 1)) {
        Some(p) => p.clone(),
        None => {
            eprintln!("HARNESS-ERROR: worker needs argv `-c <config.toml>`");
            return 2;
        }
    };
    let text = match std::fs::read_to_string(batch_path) {
        Ok(t) => t,
        Err(e) => {
            eprintln!("HARNESS-ERROR: cannot read batch {batch_path}: {e}");
            return 2;
        }
    };
    let mut scenarios: Vec<Scenario> = Vec::new();
    for l in text.lines().filter(|l| !l.trim().is_empty()) {
        match serde_json::from_str(l) {
            Ok(s) => scenarios.push(s),
            Err(e) => {
                eprintln!("HARNESS-ERROR: bad scenario line: {e}: {l}");
                return 2;
            }
        }
    }
    let config = match statime_linux::config::Config::from_file(std::path::Path::new(&cfg_path)) {
        Ok(c) => c,
        Err(e) => {
            eprintln!("HARNESS-ERROR: config: {e}");
            return 2;
        }
    };
    let addr = config.observability.metrics_exporter_listen.to_string();
    // timers of the code under test run on tokio's paused clock; the harness advances it explicitly
    // (see Rig::settle), so no wall-clock time is ever waited for
    let rt = tokio::runtime::Builder::new_current_thread().enable_time().start_paused(true).build().unwrap();
    let local = tokio::task::LocalSet::new();
    let code = local.block_on(&rt, async move {
        let base = states::base_state();
        let inst_len = instance_json_len(&base);
        let (tx, rx) = tokio::sync::watch::channel(base);
        // REAL observer task (tokio::spawn inside) and REAL exporter main loop
        let observer = statime_linux::observer::spawn(&config, rx).await;
        let exporter = tokio::task::spawn_local(async { statime_linux::metrics_exporter_main().await.map_err(|e| e.to_string()) });
        let mut rig = Rig {
            exporter: Some(exporter),
            exporter_end: None,
            observer,
            observer_ended: false,
            tx,
            addr,
            rounds: 0,
            summary: WorkerSummary::default(),
            digest: Fnv::new(),
        };
        let s = rig.settle().await;
        if s != Settled::Quiescent || !sim::tcp_listening(&rig.addr) || rig.observer.is_finished() {
            eprintln!("HARNESS-ERROR: exporter/observer did not come up: {s:?} exporter_end={:?} listening={} observer_finished={}", rig.exporter_end, sim::tcp_listening(&rig.addr), rig.observer.is_finished());
            return 2;
        }
        rig.absorb_counters();
        let mut cache = WorldCache { recipe: None, states: Vec::new(), link_delay_issues: Vec::new() };
        for sc in &scenarios {
            let res = match &sc.body {
                Body::C19(b) => run_c19(&mut rig, sc.id, b, &mut cache).await,
                Body::C20(b) => run_c20(&mut rig, sc.id, b, inst_len).await,
            };
            rig.summary.scenarios += 1;
            let fatal = res.fatal;
            emit("@@R", &res);
            if fatal {
                break;
            }
        }
        rig.summary.rounds = rig.rounds;
        emit("@@S", &rig.summary);
        0
    });
    // do not run destructors of a possibly wedged runtime
    let _ = std::io::stdout().flush();
    unsafe { libc::_exit(code) }
}
