//! C19 oracle: a key -> value reference view of the live data sets, written
//! from the property statement and the metrics' own HELP/UNIT texts, compared
//! with every series the exporter served. The model is keyed on the metric's
//! base name and derives the expected number from the *served unit*, so a
//! repaired tree passes whichever way a unit defect is repaired (convert the
//! value, or rename the unit).
use crate::openmetrics::{parse, parse_http, Exposition, Family, HttpParse, Sample};
use statime::config::{ClockAccuracy, LeapIndicator, TimeSource};
use statime::observability::port::{DelayMechanism, PortState};
use statime_linux::metrics::exporter::ObservableState;
use statime_linux::observer::ObservableInstanceState;
use std::collections::BTreeMap;
use tokio::sim::{UnixFault, UnixRecord};

#[derive(Debug, Clone)]
pub struct Finding {
    pub oracle: &'static str,
    pub key: String,
    pub message: String,
}

pub type Probes = BTreeMap<String, u64>;
fn probe(p: &mut Probes, k: &str) {
    *p.entry(k.to_string()).or_insert(0) += 1;
}
fn probe_n(p: &mut Probes, k: &str, n: u64) {
    *p.entry(k.to_string()).or_insert(0) += n;
}

fn add(f: &mut Vec<Finding>, oracle: &'static str, key: String, message: String) {
    if let Some(e) = f.iter_mut().find(|e| e.oracle == oracle && e.key == key) {
        if e.message.len() < 600 {
            e.message.push_str("; ");
            e.message.push_str(&message);
        }
        return;
    }
    f.push(Finding { oracle, key, message });
}

#[derive(Clone, Debug, PartialEq)]
enum LabelV {
    ClockId([u8; 8]),
    Num(u64),
    Text(String),
}

#[derive(Clone, Copy, Debug, PartialEq)]
enum Q {
    /// dimensionless number / enumeration primitive
    Plain,
    /// a time quantity; model value in nanoseconds, served in the family's unit
    Time,
    /// true => 1, false => 0
    Bool,
    /// time quantity read from a real clock: only finite and >= 0 (and equal to the JSON's value)
    Uptime,
}

#[derive(Clone, Debug)]
struct MSeries {
    labels: Vec<(&'static str, LabelV)>,
    value: f64,
    /// further acceptable values (reserved enumeration codes collapse to one variant)
    also: Vec<(f64, f64)>,
    required: bool,
}

#[derive(Clone, Debug)]
struct MFamily {
    base: &'static str,
    q: Q,
    series: Vec<MSeries>,
    /// where the value lives
    source: &'static str,
}

/// IEEE 1588-2019 table 5 (clockAccuracy enumeration), written from the standard
fn accuracy_code(a: ClockAccuracy) -> (f64, Vec<(f64, f64)>) {
    use ClockAccuracy::*;
    let c: u32 = match a {
        Reserved => return (0.0, vec![(0.0, 22.0), (50.0, 127.0), (255.0, 255.0)]),
        PS1 => 0x17,
        PS2_5 => 0x18,
        PS10 => 0x19,
        PS25 => 0x1a,
        PS100 => 0x1b,
        PS250 => 0x1c,
        NS1 => 0x1d,
        NS2_5 => 0x1e,
        NS10 => 0x1f,
        NS25 => 0x20,
        NS100 => 0x21,
        NS250 => 0x22,
        US1 => 0x23,
        US2_5 => 0x24,
        US10 => 0x25,
        US25 => 0x26,
        US100 => 0x27,
        US250 => 0x28,
        MS1 => 0x29,
        MS2_5 => 0x2a,
        MS10 => 0x2b,
        MS25 => 0x2c,
        MS100 => 0x2d,
        MS250 => 0x2e,
        S1 => 0x2f,
        S10 => 0x30,
        SGT10 => 0x31,
        ProfileSpecific(v) => 0x80 + v as u32,
        Unknown => 0xfe,
    };
    (c as f64, vec![])
}

/// IEEE 1588-2019 table 6 (timeSource enumeration)
fn time_source_code(t: TimeSource) -> f64 {
    (match t {
        TimeSource::AtomicClock => 0x10u32,
        TimeSource::Gnss => 0x20,
        TimeSource::TerrestrialRadio => 0x30,
        TimeSource::SerialTimeCode => 0x39,
        TimeSource::Ptp => 0x40,
        TimeSource::Ntp => 0x50,
        TimeSource::HandSet => 0x60,
        TimeSource::Other => 0x90,
        TimeSource::InternalOscillator => 0xa0,
        TimeSource::ProfileSpecific(p) => 0xf0 + p as u32,
        TimeSource::Reserved => 0xff,
        TimeSource::Unknown(v) => v as u32,
    }) as f64
}

/// IEEE 1588-2019 table 20 (portState enumeration)
fn port_state_code(s: PortState) -> f64 {
    (match s {
        PortState::Initializing => 1,
        PortState::Faulty => 2,
        PortState::Disabled => 3,
        PortState::Listening => 4,
        PortState::PreMaster => 5,
        PortState::Master => 6,
        PortState::Passive => 7,
        PortState::Uncalibrated => 8,
        PortState::Slave => 9,
    }) as f64
}

/// nanoseconds of a 2^-32 ns fixed point value
fn bits32_to_ns(bits: i128) -> f64 {
    let whole = bits >> 32;
    let frac = (bits & 0xffff_ffff) as f64 / 4294967296.0;
    whole as f64 + frac
}

struct Program {
    version: String,
    build_commit: String,
    build_commit_date: String,
    uptime_seconds: f64,
}

fn model(st: &ObservableInstanceState, prog: &Program) -> Vec<MFamily> {
    let inst = vec![("clock_identity", LabelV::ClockId(st.default_ds.clock_identity.0))];
    let one = |labels: &Vec<(&'static str, LabelV)>, value: f64| vec![MSeries { labels: labels.clone(), value, also: vec![], required: true }];
    let mut m = Vec::new();
    m.push(MFamily {
        base: "uptime",
        q: Q::Uptime,
        series: one(
            &vec![
                ("version", LabelV::Text(prog.version.clone())),
                ("build_commit", LabelV::Text(prog.build_commit.clone())),
                ("build_commit_date", LabelV::Text(prog.build_commit_date.clone())),
            ],
            prog.uptime_seconds * 1e9,
        ),
        source: "program.uptime_seconds",
    });
    let d = &st.default_ds;
    m.push(MFamily { base: "number_ports", q: Q::Plain, series: one(&inst, d.number_ports as f64), source: "defaultDS.numberPorts" });
    m.push(MFamily { base: "quality_class", q: Q::Plain, series: one(&inst, d.clock_quality.clock_class as f64), source: "defaultDS.clockQuality.clockClass" });
    let (acc, also) = accuracy_code(d.clock_quality.clock_accuracy);
    m.push(MFamily {
        base: "quality_accuracy",
        q: Q::Plain,
        series: vec![MSeries { labels: inst.clone(), value: acc, also, required: true }],
        source: "defaultDS.clockQuality.clockAccuracy",
    });
    m.push(MFamily {
        base: "quality_offset_scaled_log_variance",
        q: Q::Plain,
        series: one(&inst, d.clock_quality.offset_scaled_log_variance as f64),
        source: "defaultDS.clockQuality.offsetScaledLogVariance",
    });
    m.push(MFamily { base: "priority_1", q: Q::Plain, series: one(&inst, d.priority_1 as f64), source: "defaultDS.priority1" });
    m.push(MFamily { base: "priority_2", q: Q::Plain, series: one(&inst, d.priority_2 as f64), source: "defaultDS.priority2" });
    let c = &st.current_ds;
    m.push(MFamily { base: "steps_removed", q: Q::Plain, series: one(&inst, c.steps_removed as f64), source: "currentDS.stepsRemoved" });
    m.push(MFamily {
        base: "offset_from_master",
        q: Q::Time,
        series: one(&inst, bits32_to_ns(c.offset_from_master.nanos().to_bits())),
        source: "currentDS.offsetFromMaster",
    });
    m.push(MFamily { base: "mean_delay", q: Q::Time, series: one(&inst, bits32_to_ns(c.mean_delay.nanos().to_bits())), source: "currentDS.meanDelay" });
    let p = &st.parent_ds;
    let mut pl = inst.clone();
    pl.push(("parent_clock_identity", LabelV::ClockId(p.parent_port_identity.clock_identity.0)));
    pl.push(("parent_port_number", LabelV::Num(p.parent_port_identity.port_number as u64)));
    m.push(MFamily {
        base: "grandmaster_clock_quality_class",
        q: Q::Plain,
        series: one(&pl, p.grandmaster_clock_quality.clock_class as f64),
        source: "parentDS.grandmasterClockQuality.clockClass",
    });
    let (acc, also) = accuracy_code(p.grandmaster_clock_quality.clock_accuracy);
    m.push(MFamily {
        base: "grandmaster_clock_quality_accuracy",
        q: Q::Plain,
        series: vec![MSeries { labels: pl.clone(), value: acc, also, required: true }],
        source: "parentDS.grandmasterClockQuality.clockAccuracy",
    });
    m.push(MFamily {
        base: "grandmaster_clock_quality_offset_scaled_log_variance",
        q: Q::Plain,
        series: one(&pl, p.grandmaster_clock_quality.offset_scaled_log_variance as f64),
        source: "parentDS.grandmasterClockQuality.offsetScaledLogVariance",
    });
    m.push(MFamily { base: "grandmaster_priority_1", q: Q::Plain, series: one(&pl, p.grandmaster_priority_1 as f64), source: "parentDS.grandmasterPriority1" });
    m.push(MFamily { base: "grandmaster_priority_2", q: Q::Plain, series: one(&pl, p.grandmaster_priority_2 as f64), source: "parentDS.grandmasterPriority2" });
    let t = &st.time_properties_ds;
    m.push(MFamily {
        base: "current_utc_offset",
        q: Q::Time,
        series: match t.current_utc_offset {
            Some(o) => one(&inst, o as f64 * 1e9),
            None => vec![],
        },
        source: "timePropertiesDS.currentUtcOffset",
    });
    m.push(MFamily {
        base: "upcoming_leap",
        q: Q::Time,
        series: one(
            &inst,
            match t.leap_indicator {
                LeapIndicator::NoLeap => 60e9,
                LeapIndicator::Leap61 => 61e9,
                LeapIndicator::Leap59 => 59e9,
            },
        ),
        source: "timePropertiesDS.leap59/leap61",
    });
    let b = |v: bool| if v { 1.0 } else { 0.0 };
    m.push(MFamily { base: "time_traceable", q: Q::Bool, series: one(&inst, b(t.time_traceable)), source: "timePropertiesDS.timeTraceable" });
    m.push(MFamily { base: "frequency_traceable", q: Q::Bool, series: one(&inst, b(t.frequency_traceable)), source: "timePropertiesDS.frequencyTraceable" });
    m.push(MFamily { base: "ptp_timescale", q: Q::Bool, series: one(&inst, b(t.ptp_timescale)), source: "timePropertiesDS.ptpTimescale" });
    m.push(MFamily { base: "time_source", q: Q::Plain, series: one(&inst, time_source_code(t.time_source)), source: "timePropertiesDS.timeSource" });
    let pt = &st.path_trace_ds;
    m.push(MFamily { base: "path_trace_enable", q: Q::Bool, series: one(&inst, b(pt.enable)), source: "pathTraceDS.enable" });
    let mut series = Vec::new();
    for (i, ci) in pt.list.iter().enumerate() {
        let mut l = inst.clone();
        l.push(("node", LabelV::ClockId(ci.0)));
        // a repeated identity cannot be told apart by the `node` label: only its first
        // occurrence must be served (serving both is a duplicate series, caught by the parser)
        let first = !pt.list[..i].contains(ci);
        series.push(MSeries { labels: l, value: i as f64, also: vec![], required: first });
    }
    let mut l = inst.clone();
    l.push(("node", LabelV::Text("self".into())));
    series.push(MSeries { labels: l, value: pt.list.len() as f64, also: vec![], required: true });
    m.push(MFamily { base: "path_trace_list", q: Q::Plain, series, source: "pathTraceDS.list" });
    let mut states = Vec::new();
    let mut mld = Vec::new();
    for pd in &st.port_ds {
        let mut l = inst.clone();
        l.push(("port", LabelV::Num(pd.port_identity.port_number as u64)));
        states.push(MSeries { labels: l.clone(), value: port_state_code(pd.port_state), also: vec![], required: true });
        match pd.delay_mechanism {
            DelayMechanism::P2P { mean_link_delay, .. } => {
                mld.push(MSeries { labels: l, value: mean_link_delay.0.to_bits() as f64 / 65536.0, also: vec![], required: true })
            }
            DelayMechanism::CommonP2P { mean_link_delay } => {
                mld.push(MSeries { labels: l, value: mean_link_delay.0.to_bits() as f64 / 65536.0, also: vec![], required: false })
            }
            _ => {}
        }
    }
    m.push(MFamily { base: "port_state", q: Q::Plain, series: states, source: "portDS.portState" });
    m.push(MFamily { base: "mean_link_delay", q: Q::Time, series: mld, source: "portDS.meanLinkDelay" });
    m
}

const UNITS: [(&str, f64); 4] = [("nanoseconds", 1.0), ("microseconds", 1e-3), ("milliseconds", 1e-6), ("seconds", 1e-9)];

fn hex(b: &[u8; 8]) -> String {
    b.iter().map(|x| format!("{x:02x}")).collect()
}

fn label_matches(want: &LabelV, got: &str) -> bool {
    match want {
        LabelV::ClockId(id) => {
            // any separator style; the eight octets in order, hexadecimal
            let digits: String = got.chars().filter(|c| c.is_ascii_hexdigit()).collect::<String>().to_ascii_lowercase();
            let others_ok = got.chars().all(|c| c.is_ascii_hexdigit() || matches!(c, ':' | '-' | '.'));
            others_ok && digits == hex(id)
        }
        LabelV::Num(n) => got.parse::<u64>().map(|g| g == *n).unwrap_or(false),
        LabelV::Text(t) => got == t,
    }
}

fn series_matches(ms: &MSeries, s: &Sample) -> bool {
    ms.labels.len() == s.labels.len() && ms.labels.iter().all(|(n, v)| s.labels.iter().any(|(sn, sv)| sn == n && label_matches(v, sv)))
}

fn close(served: f64, expected: f64, abs: f64) -> bool {
    served.is_finite() && (served - expected).abs() <= abs + 1e-12 * expected.abs()
}

fn compare_family(f: &Family, unit_in_name: Option<&str>, mf: &MFamily, findings: &mut Vec<Finding>, probes: &mut Probes, matched: &mut Vec<bool>) {
    let unit = f.unit.as_deref().or(unit_in_name);
    let scale = match (mf.q, unit) {
        (Q::Time | Q::Uptime, Some(u)) => match UNITS.iter().find(|(n, _)| *n == u) {
            Some((_, s)) => *s,
            None => {
                add(findings, "C19.unit_unknown", format!("series={} unit={u}", f.name), format!("{}: unit {u:?} is not a time unit but the value is a time ({})", f.name, mf.source));
                return;
            }
        },
        (Q::Time | Q::Uptime, None) => {
            add(findings, "C19.unit_missing", format!("series={}", f.name), format!("{} carries a time ({}) but states no unit", f.name, mf.source));
            return;
        }
        _ => 1.0,
    };
    for s in &f.samples {
        // several live entries may carry the same labels (a repeated path trace identity):
        // prefer an entry not matched yet whose value agrees, then any unmatched one
        let cands: Vec<usize> = (0..mf.series.len()).filter(|i| series_matches(&mf.series[*i], s)).collect();
        let pick = cands
            .iter()
            .find(|i| !matched[**i] && mf.series[**i].value * scale == s.value)
            .or_else(|| cands.iter().find(|i| !matched[**i]))
            .or_else(|| cands.first())
            .copied();
        let Some(i) = pick else {
            add(
                findings,
                "C19.unexpected_series",
                format!("series={}", f.name),
                format!("{}{:?} = {} corresponds to nothing in {} (label names/values do not identify a live entry)", s.name, s.labels, s.value_text, mf.source),
            );
            continue;
        };
        matched[i] = true;
        let ms = &mf.series[i];
        probe(probes, "series_compared");
        match mf.q {
            Q::Plain => {
                let ok = s.value == ms.value || ms.also.iter().any(|(lo, hi)| s.value >= *lo && s.value <= *hi && s.value.fract() == 0.0);
                if !ok {
                    add(
                        findings,
                        "C19.value_mismatch",
                        format!("series={}", f.name),
                        format!("{}{:?} serves {} but {} is {}", s.name, s.labels, s.value_text, mf.source, ms.value),
                    );
                }
            }
            Q::Bool => {
                probe(probes, if ms.value == 1.0 { "bool_true_compared" } else { "bool_false_compared" });
                if s.value != ms.value {
                    let key = if s.value == 1.0 - ms.value { "inverted (true served as 0, false as 1)".to_string() } else { format!("not_0_or_1 series={}", f.name) };
                    add(
                        findings,
                        "C19.boolean_encoding",
                        key,
                        format!("{} serves {} but {} is {} (help: {:?})", s.name, s.value_text, mf.source, ms.value == 1.0, f.help.as_deref().unwrap_or("")),
                    );
                }
            }
            Q::Time => {
                let expected = ms.value * scale;
                // tolerance: one nanosecond (sub-nanosecond digits may be dropped)
                if !close(s.value, expected, scale) {
                    let u = unit.unwrap_or("");
                    let alt = UNITS.iter().find(|(n, sc)| *n != u && close(s.value, ms.value * sc, *sc) && ms.value != 0.0);
                    match alt {
                        Some((alt_unit, _)) => add(
                            findings,
                            "C19.unit_scale",
                            format!("{alt_unit}_under_{u} series={}", f.name),
                            format!(
                                "{} (unit {u}) serves {} which is the value in {alt_unit}; {} is {} ns, i.e. {} {u}",
                                s.name, s.value_text, mf.source, ms.value, expected
                            ),
                        ),
                        None => add(
                            findings,
                            "C19.value_mismatch",
                            format!("series={}", f.name),
                            format!("{}{:?} (unit {u}) serves {} but {} is {} ns = {} {u}", s.name, s.labels, s.value_text, mf.source, ms.value, expected),
                        ),
                    }
                }
            }
            Q::Uptime => {
                if !(s.value.is_finite() && s.value >= 0.0) {
                    add(findings, "C19.value_mismatch", format!("series={}", f.name), format!("{} serves {}: not a finite non-negative number", s.name, s.value_text));
                } else if !close(s.value, ms.value * scale, 1e-9 * ms.value.abs() * scale + scale) {
                    add(
                        findings,
                        "C19.value_mismatch",
                        format!("series={}", f.name),
                        format!("{} serves {} but the observation JSON said {} s", s.name, s.value_text, ms.value / 1e9),
                    );
                }
            }
        }
    }
}

fn compare(ex: &Exposition, m: &[MFamily], findings: &mut Vec<Finding>, probes: &mut Probes) {
    let mut seen = vec![false; m.len()];
    for f in &ex.families {
        let Some(rest) = f.name.strip_prefix("statime_") else {
            probe(probes, "unmodelled_family");
            continue;
        };
        let hit = m.iter().enumerate().find_map(|(i, mf)| {
            if rest == mf.base {
                Some((i, None))
            } else {
                rest.strip_prefix(mf.base).and_then(|r| r.strip_prefix('_')).and_then(|u| UNITS.iter().find(|(n, _)| *n == u).map(|(n, _)| (i, Some(*n))))
            }
        });
        let Some((i, unit_in_name)) = hit else {
            probe(probes, "unmodelled_family");
            continue;
        };
        if seen[i] {
            add(findings, "C19.exposition_syntax", format!("family_repeated family={}", f.name), format!("two families serve {}", m[i].source));
            continue;
        }
        seen[i] = true;
        let mut matched = vec![false; m[i].series.len()];
        compare_family(f, unit_in_name, &m[i], findings, probes, &mut matched);
        for (k, ms) in m[i].series.iter().enumerate() {
            if ms.required && !matched[k] {
                add(
                    findings,
                    "C19.missing_series",
                    format!("series={}", f.name),
                    format!("{}: no series for labels {:?} although {} has that entry (value {})", f.name, ms.labels, m[i].source, ms.value),
                );
            }
        }
    }
    for (i, mf) in m.iter().enumerate() {
        if !seen[i] && mf.series.iter().any(|s| s.required) {
            add(findings, "C19.missing_series", format!("family=statime_{}", mf.base), format!("no metric family serves {}", mf.source));
        }
    }
}

pub struct Checked {
    pub findings: Vec<Finding>,
    /// status 200, body parsed and every series compared
    pub evaluated: bool,
    pub status: Option<u16>,
    pub families: usize,
    pub series: usize,
    pub body_len: usize,
    pub json_len: usize,
}

/// The full C19 oracle for one exchange.
pub fn check(live: &ObservableInstanceState, raw_response: &[u8], server_closed: bool, unix: &[UnixRecord], probes: &mut Probes) -> Checked {
    let mut findings = Vec::new();
    let mut out = Checked { findings: Vec::new(), evaluated: false, status: None, families: 0, series: 0, body_len: 0, json_len: 0 };

    // --- JSON hop
    let mut program = None;
    let healthy: Vec<&UnixRecord> = unix.iter().filter(|u| u.fault == UnixFault::None).collect();
    if healthy.len() != 1 || unix.len() != 1 {
        add(&mut findings, "C19.json_hop", "connection_count".into(), format!("expected one observation-socket connection for one request, saw {}", unix.len()));
    }
    if let Some(u) = healthy.first() {
        out.json_len = u.written.len();
        probe_n(probes, "json_bytes", u.written.len() as u64);
        if u.read_sizes.len() > 1 {
            probe(probes, "json_read_in_several_reads");
        }
        if u.written.len() > 16 * 1024 {
            probe(probes, "json_larger_than_16KiB");
        }
        if u.delivered != u.written {
            add(
                &mut findings,
                "C19.json_hop",
                "partial_read".into(),
                format!("the observer wrote {} bytes, the exporter read {} of them before answering", u.written.len(), u.delivered.len()),
            );
        }
        // independent look at the text: the fixed-point bit patterns must be there as integers
        let text = String::from_utf8_lossy(&u.written);
        for (field, bits) in [
            ("offset_from_master", live.current_ds.offset_from_master.nanos().to_bits()),
            ("mean_delay", live.current_ds.mean_delay.nanos().to_bits()),
        ] {
            let needle = format!("\"{field}\":{bits}");
            let ok = text.find(&needle).map(|p| text[p + needle.len()..].starts_with(|c: char| c == ',' || c == '}')).unwrap_or(false);
            if !ok {
                add(&mut findings, "C19.json_hop", format!("serialised_field={field}"), format!("JSON does not contain {needle}"));
            }
        }
        match serde_json::from_slice::<ObservableState>(&u.delivered) {
            Ok(os) => {
                let a = format!("{:?}", os.instance);
                let b = format!("{live:?}");
                if a != b {
                    let at = a.bytes().zip(b.bytes()).position(|(x, y)| x != y).unwrap_or(a.len().min(b.len()));
                    let lo = at.saturating_sub(60);
                    add(
                        &mut findings,
                        "C19.json_hop",
                        "deserialised_differs".into(),
                        format!("state after the JSON hop differs from the live state near: got ..{} / live ..{}", &a[lo..(at + 40).min(a.len())], &b[lo..(at + 40).min(b.len())]),
                    );
                }
                program = Some(Program {
                    version: os.program.version,
                    build_commit: os.program.build_commit,
                    build_commit_date: os.program.build_commit_date,
                    uptime_seconds: os.program.uptime_seconds,
                });
            }
            Err(e) => add(&mut findings, "C19.json_hop", "does_not_deserialise".into(), format!("the observer's JSON does not deserialise as ObservableState: {e}")),
        }
    }

    // --- HTTP framing
    let resp = match parse_http(raw_response) {
        HttpParse::Complete(r) => r,
        HttpParse::Incomplete(why) => {
            let key = if server_closed && why.starts_with("body shorter") { "content_length_mismatch" } else { "incomplete_response" };
            add(
                &mut findings,
                "C19.http_framing",
                key.into(),
                format!("response incomplete ({why}); {} bytes received, connection closed by the exporter: {server_closed}", raw_response.len()),
            );
            out.findings = findings;
            return out;
        }
        HttpParse::Malformed(kind, d) => {
            add(&mut findings, "C19.http_framing", kind.to_string(), format!("malformed HTTP response: {kind} {d}"));
            out.findings = findings;
            return out;
        }
    };
    out.status = Some(resp.status);
    out.body_len = resp.body.len();
    if resp.status != 200 {
        add(
            &mut findings,
            "C19.error_status",
            format!("status={}", resp.status),
            format!("well-formed request with a healthy observation socket answered with {} {}", resp.status, resp.reason),
        );
        out.findings = findings;
        return out;
    }
    if resp.header("content-type").is_none() {
        probe(probes, "no_content_type");
    }

    // --- exposition syntax
    let ex = parse(&resp.body);
    for e in &ex.errors {
        let fam = e.detail.strip_prefix("family=").and_then(|d| d.split(' ').next()).map(|f| format!(" family={f}")).unwrap_or_default();
        add(&mut findings, "C19.exposition_syntax", format!("{}{}", e.kind, fam), format!("line {}: {} {}", e.line, e.kind, e.detail));
    }
    out.families = ex.families.len();
    out.series = ex.families.iter().map(|f| f.samples.len()).sum();

    // --- every series against the live data sets
    if let Some(p) = &program {
        compare(&ex, &model(live, p), &mut findings, probes);
        out.evaluated = true;
    }
    out.findings = findings;
    out
}

/// Well-formedness only (used by C20 for 200 responses).
pub fn body_well_formed(body: &[u8]) -> Result<usize, String> {
    let ex = parse(body);
    match ex.errors.first() {
        None => Ok(ex.families.iter().map(|f| f.samples.len()).sum()),
        Some(e) => Err(format!("line {}: {} {}", e.line, e.kind, e.detail)),
    }
}
