//! expsim - decides C19 and C20 by running the unmodified statime-linux
//! observer and metrics exporter in-process over simulated sockets.
//!
//!   expsim check C19|C20 quick|thorough
//!   expsim replay <file> [--quiet]
//!   expsim selftest
//!   expsim worker <batch.jsonl>      (debugging aid: runs a batch in a proper worker process)
//!
//! A worker process is this same binary started with argv `-c <config.toml>`
//! (what the exporter's own clap parser wants to see) and the environment
//! variable EXPSIM_WORKER=<batch.jsonl>.
mod openmetrics;
mod oracle19;
mod parent;
mod scenario;
mod states;
mod worker;

use vcommon::Tier;

fn usage() -> i32 {
    eprintln!("usage: expsim check <C19|C20> <quick|thorough> | replay <file> [--quiet] | selftest | worker <batch.jsonl>");
    2
}

fn main() {
    if let Ok(batch) = std::env::var("EXPSIM_WORKER") {
        std::process::exit(worker::worker_main(&batch));
    }
    let args: Vec<String> = std::env::args().skip(1).collect();
    let code = match args.first().map(|s| s.as_str()) {
        Some("check") => {
            let tier = match args.get(2).map(|s| s.as_str()) {
                Some("quick") | None => Tier::Quick,
                Some("thorough") => Tier::Thorough,
                _ => std::process::exit(usage()),
            };
            match args.get(1).map(|s| s.as_str()) {
                Some("C19") => parent::check_c19(tier),
                Some("C20") => parent::check_c20(tier),
                _ => usage(),
            }
        }
        Some("replay") => match args.get(1) {
            Some(f) => parent::replay(f, args.iter().any(|a| a == "--quiet")),
            None => usage(),
        },
        Some("selftest") => parent::selftest(),
        Some("worker") => match args.get(1) {
            Some(f) => {
                let text = std::fs::read_to_string(f).unwrap_or_default();
                let list: Vec<scenario::Scenario> = text.lines().filter(|l| !l.trim().is_empty()).filter_map(|l| serde_json::from_str(l).ok()).collect();
                let out = parent::run_batch(&list, list.len().max(1), 1);
                for r in out.results.values() {
                    println!("{}", serde_json::to_string(r).unwrap());
                }
                for e in &out.harness_errors {
                    eprintln!("HARNESS-ERROR: {e}");
                }
                if out.harness_errors.is_empty() { 0 } else { 2 }
            }
            None => usage(),
        },
        _ => usage(),
    };
    std::process::exit(code);
}
