fn main() {
    let rt = tokio::runtime::Builder::new_current_thread().build().unwrap();
    let local = tokio::task::LocalSet::new();
    local.block_on(&rt, async {
        let h = tokio::task::spawn_local(async { statime_linux::metrics_exporter_main().await.map_err(|e| e.to_string()) });
        for _ in 0..5 { tokio::task::yield_now().await; }
        println!("finished={}", h.is_finished());
        let mut c = tokio::sim::TcpClient::connect("127.0.0.1:9975").unwrap();
        c.write(b"GET /metrics HTTP/1.1\r\n\r\n");
        for _ in 0..5 { tokio::task::yield_now().await; }
        println!("{}", String::from_utf8_lossy(&c.take_received()));
        c.close();
    });
}
