//! Instance states: reached by simulating small PTP networks with `ptpsim`
//! (the only module that touches ptpsim), then optionally edited through the
//! public fields of the observable data sets.
use crate::scenario::{Edit, WorldRecipe};
use fixed::types::{I48F16, I96F32};
use ptpsim::clock::{MS, NS, SEC, US};
use ptpsim::host::{accuracy_from_u8, time_source_from_u8, NodeSpec, PortSpec, SnapshotParts, TimePropsSpec, World};
use statime::config::{ClockIdentity, LeapIndicator};
use statime::observability::port::{DelayMechanism, PortState};
use statime::time::Duration;
use statime_linux::observer::ObservableInstanceState;
use vcommon::tape::S_CFG;
use vcommon::{Chooser, Fnv, Rng64};

fn to_state(s: &SnapshotParts) -> ObservableInstanceState {
    ObservableInstanceState {
        default_ds: s.default_ds,
        current_ds: s.current_ds,
        parent_ds: s.parent_ds,
        time_properties_ds: s.time_properties_ds,
        path_trace_ds: s.path_trace_ds.clone(),
        port_ds: s.port_ds.clone(),
    }
}

pub fn state_hash(s: &ObservableInstanceState) -> u64 {
    let mut f = Fnv::new();
    f.str(&format!("{s:?}"));
    f.finish()
}

fn random_timeprops(ch: &mut Chooser) -> TimePropsSpec {
    TimePropsSpec {
        utc_offset: if ch.boolean(S_CFG) { Some(37) } else { None },
        leap: ch.choose(S_CFG, 3) as u8,
        time_traceable: ch.boolean(S_CFG),
        freq_traceable: ch.boolean(S_CFG),
        ptp_timescale: ch.boolean(S_CFG),
        time_source: *ch.pick(S_CFG, &[0xa0u8, 0x10, 0x20, 0x40, 0x50, 0x90]),
    }
}

fn node(ch: &mut Chooser, idx: u8, ports: Vec<PortSpec>, path_trace: bool) -> NodeSpec {
    let mut spec = NodeSpec::default();
    spec.id = [0x02, 0x11, ch.choose(S_CFG, 256) as u8, 0xff, 0xfe, ch.choose(S_CFG, 256) as u8, 0x00, idx];
    spec.priority1 = 128;
    spec.priority2 = ch.range(S_CFG, 100, 200) as u8;
    spec.class = *ch.pick(S_CFG, &[248u8, 6, 7, 52, 187, 248, 255]);
    if spec.class == 255 {
        spec.class = 248;
    }
    spec.accuracy = *ch.pick(S_CFG, &[0xfeu8, 0x20, 0x21, 0x23, 0x31, 0x2f]);
    spec.variance = *ch.pick(S_CFG, &[0xffffu16, 0x4e5d, 0x8000, 0]);
    spec.path_trace = path_trace;
    spec.time_props = random_timeprops(ch);
    spec.ports = ports;
    // local clocks start up to +-10 s apart: the first measured offsets are large
    let off_ns: i128 = match ch.choose(S_CFG, 6) {
        0 => 0,
        1 => 1_000,
        2 => 1_000_000,
        3 => 1_000_000_000,
        4 => 10_000_000_000,
        _ => ch.choose(S_CFG, 10_000_000_001) as i128,
    };
    let sign = if ch.boolean(S_CFG) { -1 } else { 1 };
    spec.clock_start += sign * off_ns * NS as i128;
    spec.drift_ppt = ch.irange(S_CFG, -50_000_000, 50_000_000);
    spec.bmca_phase_pm = ch.range(S_CFG, 1, 999);
    spec
}

fn port(ch: &mut Chooser, seg: usize, p2p: bool) -> PortSpec {
    let mut p = PortSpec::default();
    p.segment = Some(seg);
    p.p2p = p2p;
    p.announce_log = ch.irange(S_CFG, -1, 1) as i8;
    p.sync_log = ch.irange(S_CFG, -2, 0) as i8;
    p.delay_log = ch.irange(S_CFG, -2, 1) as i8;
    p.asym_units = if ch.chance(S_CFG, 1, 4) { ch.irange(S_CFG, -500, 500) as i128 * NS as i128 } else { 0 };
    p.minor = ch.choose(S_CFG, 2) as u8;
    p
}

/// Simulate the recipe's network and return the distinct instance states seen
/// at BMCA ticks (first occurrence order), over all nodes.
pub fn simulate(recipe: &WorldRecipe) -> Vec<ObservableInstanceState> {
    simulate_checked(recipe).into_iter().map(|(s, _)| s).collect()
}

/// What a snapshot exposes for a P2P port against what that port works with: the port keeps the
/// mean link delay its filter last handed back (across filter replacements at state changes) and
/// subtracts it from every Sync measurement; portDS.meanLinkDelay must be that value. The live
/// value is noted by a wrapper around the real filter (`FilterCfg::Tracked`), not read from a getter.
fn link_delay_issue(s: &SnapshotParts) -> Option<String> {
    for (i, p) in s.port_ds.iter().enumerate() {
        if let DelayMechanism::P2P { mean_link_delay, .. } = p.delay_mechanism {
            let live = s.live_mean_delay.get(i).copied().flatten();
            // the type of the field cannot be named outside statime; let inference carry it
            let mut want = mean_link_delay;
            want = match live {
                Some(u) => ptpsim::clock::units_to_duration(u).into(),
                None => Default::default(),
            };
            if mean_link_delay != want {
                return Some(format!(
                    "node {} port {} (P2P, state {:?}) at t={} units: portDS.meanLinkDelay exposed as {:?}, but the mean link delay the port holds and subtracts from its Sync measurements (last value its filter returned) is {:?}",
                    s.node, i + 1, p.port_state, s.at, mean_link_delay, want
                ));
            }
        }
    }
    None
}

/// Like `simulate`, with the link-delay finding (if any) of each distinct snapshot.
pub fn simulate_checked(recipe: &WorldRecipe) -> Vec<(ObservableInstanceState, Option<String>)> {
    let mut ch = Chooser::generate(recipe.seed);
    let mut w = World::new();
    w.keep_snapshots = true;
    w.keep_emitted = false;
    w.monitors = false;
    let pt = ch.chance(S_CFG, 2, 3);
    let seg = |w: &mut World, ch: &mut Chooser| {
        let d = ch.range(S_CFG, 1, 400) as u128 * US;
        w.add_segment(d, ch.range(S_CFG, 0, 20) as u128 * US)
    };
    match recipe.topo.as_str() {
        "pair" | "pair_p2p" => {
            let p2p = recipe.topo == "pair_p2p";
            let s = seg(&mut w, &mut ch);
            for i in 0..2u8 {
                let p = port(&mut ch, s, p2p);
                let mut n = node(&mut ch, i + 1, vec![p], pt);
                n.priority1 = 100 + 20 * i;
                if i == 1 {
                    n.slave_only = ch.boolean(S_CFG);
                }
                w.add_node(n, &mut ch);
            }
        }
        "chain3" => {
            let a = seg(&mut w, &mut ch);
            let b = seg(&mut w, &mut ch);
            let p2p_b = ch.boolean(S_CFG);
            let p = port(&mut ch, a, false);
            let mut gm = node(&mut ch, 1, vec![p], pt);
            gm.priority1 = 90;
            w.add_node(gm, &mut ch);
            let ports = vec![port(&mut ch, a, false), port(&mut ch, b, p2p_b)];
            let bc = node(&mut ch, 2, ports, pt);
            w.add_node(bc, &mut ch);
            let p = port(&mut ch, b, p2p_b);
            let mut leaf = node(&mut ch, 3, vec![p], pt);
            leaf.priority1 = 200;
            w.add_node(leaf, &mut ch);
        }
        "bc3" => {
            let a = seg(&mut w, &mut ch);
            let b = seg(&mut w, &mut ch);
            let c = seg(&mut w, &mut ch);
            let p = port(&mut ch, a, false);
            let mut gm = node(&mut ch, 1, vec![p], pt);
            gm.priority1 = 90;
            w.add_node(gm, &mut ch);
            let mut ports = vec![port(&mut ch, a, false), port(&mut ch, b, false), port(&mut ch, c, true)];
            ports[1].master_only = ch.boolean(S_CFG);
            let bc = node(&mut ch, 2, ports, pt);
            w.add_node(bc, &mut ch);
            let p = port(&mut ch, b, false);
            let mut l1 = node(&mut ch, 3, vec![p], pt);
            l1.priority1 = 200;
            w.add_node(l1, &mut ch);
            let p = port(&mut ch, c, true);
            let mut l2 = node(&mut ch, 4, vec![p], pt);
            l2.priority1 = 210;
            l2.slave_only = ch.boolean(S_CFG);
            w.add_node(l2, &mut ch);
        }
        "dual" => {
            // two candidate grandmasters and a node with two ports on the same segment (one goes Passive)
            let a = seg(&mut w, &mut ch);
            for i in 0..2u8 {
                let p = port(&mut ch, a, false);
                let mut n = node(&mut ch, i + 1, vec![p], pt);
                n.priority1 = 100 + i;
                w.add_node(n, &mut ch);
            }
            let ports = vec![port(&mut ch, a, false), port(&mut ch, a, false)];
            let mut n = node(&mut ch, 3, ports, pt);
            n.priority1 = 180;
            w.add_node(n, &mut ch);
        }
        _ => {
            // "gm": a lone grandmaster
            let s = seg(&mut w, &mut ch);
            let p2p = ch_bool(&mut ch);
            let p = port(&mut ch, s, p2p);
            let n = node(&mut ch, 1, vec![p], pt);
            w.add_node(n, &mut ch);
        }
    }
    let _ = MS;
    let t0 = recipe.seconds.clamp(1, 120) as u128 * SEC;
    w.run_until(&mut ch, t0);
    // in half of the worlds the best clock then falls silent (its neighbours' slave ports time out,
    // ports leave Slave, a new hierarchy forms) and in half of those it returns: the states after a
    // port has left Slave are reached only this way (filter replaced, measured link delay kept)
    if w.nodes.len() > 1 && ch.boolean(S_CFG) {
        w.nodes[0].silenced = true;
        w.run_until(&mut ch, t0 + 20 * SEC);
        if ch.boolean(S_CFG) {
            w.nodes[0].silenced = false;
            w.run_until(&mut ch, t0 + 40 * SEC);
        }
    }
    let mut seen = std::collections::BTreeSet::new();
    let mut out = Vec::new();
    for s in &w.snapshots {
        let st = to_state(s);
        let issue = link_delay_issue(s);
        if seen.insert((state_hash(&st), issue.is_some())) {
            out.push((st, issue));
        }
    }
    out
}

fn ch_bool(ch: &mut Chooser) -> bool {
    ch.boolean(S_CFG)
}

/// The fixed base state used by C20 workers (cheap: a lone grandmaster, 2 s).
pub fn base_state() -> ObservableInstanceState {
    let v = simulate(&WorldRecipe { topo: "gm".into(), seed: 1, seconds: 2 });
    v.into_iter().last().expect("ptpsim produced no BMCA snapshot in 2 simulated seconds")
}

fn port_state_from(n: u8) -> PortState {
    match n {
        1 => PortState::Initializing,
        2 => PortState::Faulty,
        3 => PortState::Disabled,
        4 => PortState::Listening,
        5 => PortState::PreMaster,
        6 => PortState::Master,
        7 => PortState::Passive,
        8 => PortState::Uncalibrated,
        _ => PortState::Slave,
    }
}

pub fn apply_edits(st: &mut ObservableInstanceState, edits: &[Edit]) {
    for e in edits {
        match e {
            Edit::OffsetBits(s) => {
                if let Ok(b) = s.parse::<i128>() {
                    st.current_ds.offset_from_master = Duration::from_fixed_nanos(I96F32::from_bits(b));
                }
            }
            Edit::MeanDelayBits(s) => {
                if let Ok(b) = s.parse::<i128>() {
                    st.current_ds.mean_delay = Duration::from_fixed_nanos(I96F32::from_bits(b));
                }
            }
            Edit::StepsRemoved(n) => st.current_ds.steps_removed = *n,
            Edit::PortState(sel, n) => {
                if !st.port_ds.is_empty() {
                    let i = *sel as usize % st.port_ds.len();
                    st.port_ds[i].port_state = port_state_from(*n);
                }
            }
            Edit::PortMechanism(sel, mech, log, mld) => {
                if !st.port_ds.is_empty() {
                    let i = *sel as usize % st.port_ds.len();
                    // a TimeInterval cannot be named from outside statime: copy one and set its bits
                    let mut ti = st.port_ds[i].delay_asymmetry;
                    ti.0 = I48F16::from_bits(*mld);
                    st.port_ds[i].delay_mechanism = match mech % 5 {
                        0 => DelayMechanism::E2E { log_min_delay_req_interval: *log },
                        1 => DelayMechanism::P2P { log_min_p_delay_req_interval: *log, mean_link_delay: ti },
                        2 => DelayMechanism::NoMechanism,
                        3 => DelayMechanism::CommonP2P { mean_link_delay: ti },
                        _ => DelayMechanism::Special,
                    };
                }
            }
            Edit::TimeProps { utc, leap, time_traceable, frequency_traceable, ptp_timescale, source } => {
                let t = &mut st.time_properties_ds;
                t.current_utc_offset = *utc;
                t.leap_indicator = match leap % 3 {
                    1 => LeapIndicator::Leap61,
                    2 => LeapIndicator::Leap59,
                    _ => LeapIndicator::NoLeap,
                };
                t.time_traceable = *time_traceable;
                t.frequency_traceable = *frequency_traceable;
                t.ptp_timescale = *ptp_timescale;
                t.time_source = time_source_from_u8(*source);
            }
            Edit::PathTrace { enable, len, seed } => {
                st.path_trace_ds.enable = *enable;
                st.path_trace_ds.list.clear();
                let mut r = Rng64::new(*seed);
                let own = st.default_ds.clock_identity;
                let mut used = std::collections::BTreeSet::new();
                while st.path_trace_ds.list.len() < (*len as usize).min(st.path_trace_ds.list.capacity()) {
                    let id = r.next_u64().to_be_bytes();
                    // distinct identities, none of them the instance's own (a loop would have been refused)
                    if id != own.0 && used.insert(id) {
                        let _ = st.path_trace_ds.list.try_push(ClockIdentity(id));
                    }
                }
            }
            Edit::PathTraceRepeat(sel) => {
                let n = st.path_trace_ds.list.len();
                if n > 0 {
                    let c = st.path_trace_ds.list[*sel as usize % n];
                    let _ = st.path_trace_ds.list.try_push(c);
                }
            }
            Edit::Quality { class, accuracy, variance } => {
                st.default_ds.clock_quality.clock_class = *class;
                st.default_ds.clock_quality.clock_accuracy = accuracy_from_u8(*accuracy);
                st.default_ds.clock_quality.offset_scaled_log_variance = *variance;
            }
            Edit::GmQuality { class, accuracy, variance } => {
                st.parent_ds.grandmaster_clock_quality.clock_class = *class;
                st.parent_ds.grandmaster_clock_quality.clock_accuracy = accuracy_from_u8(*accuracy);
                st.parent_ds.grandmaster_clock_quality.offset_scaled_log_variance = *variance;
            }
            Edit::Priorities { p1, p2, gm_p1, gm_p2 } => {
                st.default_ds.priority_1 = *p1;
                st.default_ds.priority_2 = *p2;
                st.parent_ds.grandmaster_priority_1 = *gm_p1;
                st.parent_ds.grandmaster_priority_2 = *gm_p2;
            }
        }
    }
}
